#!/usr/bin/env python3
"""Regenerates MANIFEST.json from the table below (kept as code so it is always schema-valid)."""
import json
import os
import subprocess

VERIF = os.path.dirname(os.path.dirname(os.path.abspath(__file__)))

CHECKS = {
    "C01": dict(cat="proof", technique="Lean 4 theorem (stack-path + rightmost-derivation invariant over the driver model) + verified certificates evaluated on the implementation's automaton/table + differential correspondence",
                text="Kernel-checked theorem C01_sound: for every table passing the decidable certificates gramWF/certA/certT, every input and fuel, an accepting run's reductions are a rightmost derivation of exactly the input. The certificates are evaluated by the compiled Lean model on the implementation's own LR0Closure and GTable for every generated grammar, so for each grammar explored the claim about all inputs rests on the theorem.",
                note="Trusted: Lean kernel; compiled ymodel evaluates the certificates; Go harness dump; the driver model is tied to the generated code by execution of compiled parsers (C08 check). Axioms: propext, Quot.sound, Classical.choice at most.",
                ref="DESIGN.md §5 C01"),
    "C02": dict(cat="proof", technique="Lean 4 theorems (completeness simulation over lookahead-annotated items; Bool-certificate bridges) + completeness certificate certC evaluated on the implementation's table + Earley oracle",
                text="Kernel-checked: the completeness simulation Y.sim (a conflict-free, closed, lookahead-annotated item system drives the parser through every derivation) and the bridges from Bool checks to its hypotheses (LA_in_table, firstOf_sets). Per grammar: LALR(1)-ness is decided by the verified lookahead oracle on the implementation's automaton, certC is evaluated on the implementation's GTable, and every Earley-recognised sentence up to a bound plus sampled sentences must be accepted by the driver model on that table (and no non-sentence).",
                note="Partial: the glue from certC to the hypotheses of Y.sim is validated per grammar rather than stated as one theorem. Trusted: Lean kernel, ymodel, harness, Earley oracle in cfg.py.",
                ref="DESIGN.md §5 C02"),
    "C03": dict(cat="proof", technique="Lean 4 theorem LALR propagation fixpoint = union over canonical LR(1) states with the same core (LA_iff) used as verified oracle for the implementation's DeRemer-Pennello output",
                text="Kernel-checked LA_iff: the least solution of the LALR(1) propagation rules over the LR(0) automaton equals the union of the lookaheads of the canonical LR(1) states reached by the state's access paths; LA_in_table: a table passing the Bool closure check contains every such fact. Per grammar the implementation's (state, rule) lookahead sets are compared as sets with the fixpoint computed on the implementation's own automaton, and its conflict warnings (cell level) with the unresolved conflicts predicted from those lookaheads.",
                note="The DeRemer-Pennello algorithm itself is validated per grammar, not verified for all grammars. Trusted: Lean kernel, ymodel, harness hook VerifLookaheads.",
                ref="DESIGN.md §5 C03"),
    "C04": dict(cat="proof", technique="Lean 4 theorems about the Go decision functions translated to Lean on every run (go/ast translator) + specification-function recomputation of every two-way conflict cell + precedence-climbing reference on operator grammars",
                text="ResolveConflict and UseDefaultResolveConflict are translated statement by statement from LALR/Table.go into Gen/Resolve.lean on every run; the precedence/associativity theorems (higher level wins, %left reduces, %right shifts, %nonassoc errors, default shift, reduce/reduce picks the earlier rule) are proved about that generated text, so an edit of the functions is re-proved or breaks the build. Every two-way conflict cell of every generated grammar is recomputed from the property's rule; whole expressions of random operator tables are grouped against a precedence-climbing reference.",
                note="Reduce/reduce cells where both rules carry a precedence are treated as unspecified. End-to-end grouping is by execution. Trusted: translator (fails closed), Lean kernel, harness.",
                ref="DESIGN.md §5 C04"),
    "C05": dict(cat="proof", technique="Lean 4 theorems on the row-displacement placement invariant (first-fit, non-overlap, cell recovery) + packed-lookup certificate on the implementation's five arrays + differential run of PackTable/UnPackTable on random matrices",
                text="Kernel-checked abstract core of row displacement: first-fit finds a free displacement, placing preserves the non-overlap invariant, and under the invariant every cell of every placed row is recovered through owner check + value. Per grammar every (state, symbol) cell is looked up through the implementation's packed arrays with the generated Action logic and compared with GTable; random matrices go through the real PackTable/UnPackTable; the Lean mirror of split+pack must reproduce the implementation's arrays byte for byte.",
                note="Partial: the refinement from the array-based mirror to the abstract placement view is by correspondence, not yet a theorem. Trusted: Lean kernel, ymodel, harness.",
                ref="DESIGN.md §5 C05"),
    "C06": dict(cat="proof", technique="Lean 4 theorem (never crash, tokens requested = shifted + 1) over the driver model on certified tables + valid-item/viable-prefix theorems + Earley viable-prefix oracle",
                text="Kernel-checked C06_safe: on every certified table, for every input and fuel the driver ends in accept, syntaxError or outOfFuel, never in a crash (no out-of-range state, symbol, slice or goto), and at a syntax error exactly shifted+1 tokens were requested. St0_valid/valid_viable: items of canonical LR(0) states are valid, hence consumed input is a viable prefix. Per grammar: all strings up to a bound and mutated sentences through the driver on the implementation's table; for conflict-free grammars the error must come exactly at the first token that cannot continue a sentence (Earley oracle).",
                note="Partial: termination on every conflict-free grammar is covered by step-bounded execution only; the per-backend error channel is checked by execution of the generated parsers (C08 runs).",
                ref="DESIGN.md §5 C06"),
    "C09": dict(cat="proof", technique="Lean 4 certificate theorems on the implementation's automaton + byte-identical executable Lean mirror of the worklist construction + independent canonical-collection reference",
                text="The implementation's LR0Closure is compared, as a set of item sets with transitions, with an independently computed canonical LR(0) collection (no duplicates, none missing or extra, state 0 = closure of the start item, items sorted); the Lean mirror of ComputeIClosure/ComputeAllGoto must reproduce states and gotos with the implementation's numbering; certA (backward consistency, goto completeness, justification) passes on every automaton.",
                note="Theorems for this property are being extended (closure correctness of the mirror).",
                ref="DESIGN.md §5 C09"),
    "C07": dict(cat="translation_validation", technique="execution of all five generated variants against the Lean driver model with values + independent bottom-up evaluation of the parse tree",
                text="For every accepted run of every variant the returned value is compared with an independent bottom-up evaluation of the harness's random linear actions over the parse tree rebuilt from the reduction log, and with the Lean driver model (value stack with two union fields) run on the table scraped from the generated file.",
                note="Theorems for the slot discipline are being added; at present the Lean part is the executable driver model. Trusted: Go toolchain, Node type stripping, harness actions.",
                ref="DESIGN.md §5 C07"),
    "C08": dict(cat="translation_validation", technique="differential execution of the five generated variants against each other and against the Lean driver model run on the table scraped from each generated file",
                text="Every grammar is generated as go, go -u, go -o, go -o -u and typescript through the generator entry points; all Go variants are linked into one binary, TypeScript runs under Node type stripping; on every input all variants must agree on verdict, reduction log, value and tokens requested, and each must equal the Lean driver model run on that file's own table literal.",
                note="The equivalence of the three hand-maintained loops is established by execution, not yet by a theorem over three loop models.",
                ref="DESIGN.md §5 C08"),
    "C10": dict(cat="proof", technique="Lean 4 functional models of lexer, parser and visitor (token-for-token / node-for-node correspondence) + kernel-checked lexer totality + expected-result comparison over random layouts",
                text="Random abstract file specifications are rendered in many layouts (blanks, tabs, newlines, // and /* */ comments incl. /**/ and **/ endings, optional ';', optional second %%); the implementation's result (rules in order, %prec, actions, start, numbers, tags, precedence, verbatim prologue/union/epilogue) is compared with what the specification says, and tokens, AST and grammar with the Lean front-end model (YLex, YParse, Visitor). Kernel-checked: the lexer model is total with fuel |src|+2.",
                note="Partial: layout independence itself is established by correspondence and the expected-result comparison, not yet by a theorem over the lexer model.",
                ref="DESIGN.md §5 C10"),
    "C11": dict(cat="translation_validation", technique="Lean visitor model (token numbering) vs implementation + scraping of the emitted const block and translate switch for both targets",
                text="Random declaration mixes: literal codes, explicit numbers and automatic codes are checked for the property's rules (kept, pairwise distinct, -1 reserved) on the implementation's symbol table; the generated Go and TypeScript files are scraped: one constant per named token with its code, none for literals, translate maps exactly code -> symbol; the Lean Visitor model must produce the same symbol table.",
                note="Theorem C11_codes on the visitor model is planned.", ref="DESIGN.md §5 C11"),
    "C12": dict(cat="translation_validation", technique="Lean front-end model (visitor + productive fixpoint) vs implementation verdict + specification-level verdict oracle on planted defects",
                text="Grammars with planted defects (undefined symbol, nonterminal without rule, unproductive nonterminal: self/mutual/start/deep/unreachable) or none, and sampled exhaustive tiny grammars: the implementation's verdict and reason class must equal the property's rule computed from the abstract specification and the Lean front-end model's verdict.",
                note="Theorem C12_productive_exact on the fixpoint model is planned.", ref="DESIGN.md §5 C12"),
    "C13": dict(cat="proof", technique="Lean 4 totality theorem of the lexer model + front-end model correspondence + deadline runs of the real CLI on prefixes and random edits",
                text="Kernel-checked: the lexer model terminates on every text with fuel |src|+2 (lexAll_total). Every prefix (step 23 / 5 bytes) of the example grammars and of rendered random files, hand-written truncations and random edits go through `yaccgo generate` and `yaccgo debug` as child processes under a deadline three orders of magnitude above the normal run time; a hang is re-run alone before being reported; the ASCII texts also go through the in-process front end and must match the Lean front-end model stage by stage.",
                note="Partial: the parser model's totality is by explicit fuel + correspondence, not yet a theorem.", ref="DESIGN.md §5 C13"),
    "C14": dict(cat="exploration", technique="repeated runs (fresh processes and same process) compared byte for byte; map-range sites extracted from the source by the translator",
                text="Every (grammar, option set) pair is generated N times in fresh processes (Go randomises every map iteration, which plays the role of the schedule) and twice in one process; outputs are compared byte for byte. The translator extracts every range-over-map site of non-test code into Gen/Facts.lean.",
                note="The order-irrelevance theorem over a generation model with an order oracle is planned; at present this is exploration.", ref="DESIGN.md §5 C14"),
    "C15": dict(cat="proof", technique="Lean 4 refinement lemmas (array+pointer stack refines a list stack; both re-initialisations yield the pristine stack) + histories, context reuse and concurrent contexts under the Go race detector",
                text="Kernel-checked: push/pop on the growable slice with a stack pointer refine list push/drop, and ParserInit (global) / append-and-reset (context) give abs = [bottom] from any prior state. Execution: shuffled histories with repeats on the global parser, on one reused context, fresh contexts, up to 16 concurrent contexts (3 rounds each) under -race, and the TypeScript parser; every result must equal the pure-function result of the Lean driver model.",
                note="Partial: memory-level races are covered by the race detector only.", ref="DESIGN.md §5 C15"),
    "C16": dict(cat="other", technique="toolchain acceptance (go build, Node loader) of all five variants for random grammars over a name/literal/tag pool, minimal prologue and epilogue",
                text="Random grammars over a pool of symbol names (underscores, digits, non-ASCII letters), character literals incl. quote, percent, braces and backquote, explicit numbers, random tags, rule lengths 0-5, actions containing comments; minimal prologue (package + import fmt) and epilogue (GetToken only); every generated file must build with go build / load under Node.",
                note="Compiles is decided by the real toolchains; TypeScript is type-stripped, not type-checked (no tsc in the sandbox). A Lean theorem about the lexical safety of the dynamic fragments is planned.", ref="DESIGN.md §5 C16"),
    "C17": dict(cat="translation_validation", technique="printed trace of the Go variants replayed against the implementation's LR(0) automaton and the reduction log, and compared with the Lean driver model's event list",
                text="With IsTrace on, every printed line of every run of the four Go variants is parsed and replayed: shifts must follow the automaton on the input tokens, every reduce line must print the text of the rule actually reduced and the lookahead that triggered it, its goto must be the automaton's and be followed by its push line; the Lean driver model's trace events must equal the printed lines.",
                note="A theorem over the trace field of the driver model is planned.", ref="DESIGN.md §5 C17"),
    "C18": dict(cat="translation_validation", technique="parsing of the DOT graph object and of the debug listing, compared with LR0Closure / GTable / hooked lookaheads of the same run",
                text="For every grammar the graph returned by DrawGrammar (nodes, item texts, edges, reduce annotations, accept decoration) and the stdout of debug mode (states, items, transitions, lookahead sets) are parsed and compared with the automaton, the dense table and the lookaheads of the same run.",
                note="Names containing the renderers' separators are outside the domain.", ref="DESIGN.md §5 C18"),
    "C19": dict(cat="fault_enumeration", technique="enumeration of input-caused failure kinds x targets with a pre-existing output file through the real CLI; call order of the generators extracted by the translator",
                text="Every failure kind (lexical, unterminated comment/brace, syntax, undefined symbol, nonterminal without rule, unproductive nonterminal, $n out of range, $0, truncated, empty) and random mutated files, for go, go -o -u and typescript, each with a pre-existing output file: after a non-zero exit the file must be byte-identical; after success the file must end with the epilogue.",
                note="OS file semantics are assumed. The step-order theorem over the abstract file system is planned.", ref="DESIGN.md §5 C19"),
}

NOT_YET = {
}


def main():
    hooks = subprocess.run(["git", "-C", "/repo", "log", "--format=%H %s"], stdout=subprocess.PIPE).stdout.decode().split("\n")
    hook_commits = [l.split()[0] for l in hooks if l and l.split(" ", 1)[1].startswith("verif:")]
    props = [json.loads(l)["id"] for l in open(os.path.join(VERIF, "properties.jsonl"))]
    m = {
        "version": 1,
        "setup_cmd": "./bin/setup",
        "hooks": {
            "guard": "verif",
            "enable": "go build -tags verif (the harness module replaces github.com/acekingke/yaccgo with /repo)",
            "baseline_off_cmd": json.load(open("/root/.vp/BASELINE.json"))["cmd"] if os.path.exists("/root/.vp/BASELINE.json") else "cd /repo && go test -vet=off -count=1 ./...",
            "source_commits": hook_commits,
            "add_only": True,
        },
        "engines": [
            {"name": "lean", "path": "lean", "serves_properties": sorted(CHECKS), "kind_free_text": "Lean 4.33 project: models, certificates, theorems; core-only executable ymodel"},
            {"name": "harness", "path": "harness", "serves_properties": sorted(CHECKS), "kind_free_text": "Go harness calling the real packages in-process (build tag verif)"},
            {"name": "orchestrator", "path": "bin/check", "serves_properties": sorted(CHECKS), "kind_free_text": "Python 3 stdlib orchestrator, generators, reference oracles"},
        ],
        "checks": [],
        "not_applicable": [],
        "notes": "See DESIGN.md. Every check: regenerate translated Lean fragments, lake build + axiom audit (proof_ok), rebuild harness against /repo's working tree, correspondence + certificates (tie_ok), property predicate on the implementation (prop_ok).",
    }
    for pid in props:
        if pid in CHECKS:
            c = CHECKS[pid]
            m["checks"].append({
                "property_id": pid,
                "quick_cmd": "./bin/check %s --tier quick" % pid,
                "thorough_cmd": "./bin/check %s --tier thorough" % pid,
                "evidence_file": "evidence/%s.json" % pid,
                "replay_cmd_template": "./bin/check %s --replay {path}" % pid,
                "engine": "lean",
                "level_claimed": {"category": c["cat"], "text": c["text"], "design_ref": c["ref"]},
                "level_note": c["note"],
                "technique": c["technique"],
            })
        else:
            m["not_applicable"].append({"property_id": pid, "reason": NOT_YET.get(pid, "check not built yet (work in progress; the design claims it, see DESIGN.md §5)")})
    with open(os.path.join(VERIF, "MANIFEST.json"), "w") as f:
        json.dump(m, f, indent=1)
    print("MANIFEST: %d checks, %d not claimed" % (len(m["checks"]), len(m["not_applicable"])))


if __name__ == "__main__":
    main()
