package main

import (
	"bufio"
	"encoding/json"
	"fmt"
	"os"

	symbol "github.com/acekingke/yaccgo/Symbol"

	lalr "github.com/acekingke/yaccgo/LALR"
	utils "github.com/acekingke/yaccgo/Utils"
)

// cmdPack: matrices through the real PackTable / UnPackTable.
func cmdPack() {
	w := bufio.NewWriterSize(realStdout, 1<<20)
	defer w.Flush()
	readCases(os.Stdin, func(c Case) {
		var tab [][]int
		if err := json.Unmarshal(c.Aux, &tab); err != nil {
			fmt.Fprintln(os.Stderr, "bad matrix:", err)
			os.Exit(2)
		}
		fmt.Fprintf(w, "PCASE %s\n", c.ID)
		for _, r := range tab {
			fmt.Fprintf(w, "PROW %s\n", ints(r))
		}
		var T, D, C []int
		var U [][]int
		_, pv := capture(func() {
			cp := make([][]int, len(tab))
			for i := range tab {
				cp[i] = append([]int{}, tab[i]...)
			}
			T, D, C = utils.PackTable(cp)
			U = utils.UnPackTable(len(tab), len(tab[0]), T, D, C)
		})
		if pv != nil {
			fmt.Fprintf(w, "PPANIC %s\n", oneLine(fmt.Sprint(pv)))
		} else {
			fmt.Fprintf(w, "PACT %s\nPOFF %s\nPCHK %s\n", ints(T), ints(D), ints(C))
			for _, r := range U {
				fmt.Fprintf(w, "PUNP %s\n", ints(r))
			}
		}
		fmt.Fprintf(w, "PEND\n")
	})
}

// cmdResolve: all pairs of actions over a small domain through the real ResolveConflict /
// UseDefaultResolveConflict (exported methods; they do not touch the receiver).
func cmdResolve() {
	w := bufio.NewWriterSize(realStdout, 1<<20)
	defer w.Flush()
	l := &lalr.LALR1{}
	var acts []*lalr.Action
	for _, ty := range []lalr.E_ActionType{lalr.SHIFT, lalr.REDUCE} {
		for _, idx := range []int{1, 2, 3} {
			for _, pt := range []symbol.E_Precedence{symbol.LEFT, symbol.RIGHT, symbol.NONE} {
				for _, pr := range []int{-1, 1, 2} {
					ai := idx
					if ty == lalr.REDUCE {
						ai = -idx
					}
					acts = append(acts, &lalr.Action{ActionType: ty, ActionIndex: ai, PrecType: pt, Prec: pr})
				}
			}
		}
	}
	show := func(a *lalr.Action) string {
		return fmt.Sprintf("%d %d %d %d", int(a.ActionType), a.ActionIndex, int(a.PrecType), a.Prec)
	}
	for _, a := range acts {
		for _, b := range acts {
			if a.ActionType == lalr.SHIFT && b.ActionType == lalr.SHIFT {
				continue
			}
			var r *lalr.Action
			var err error
			_, pv := capture(func() { r, err = l.ResolveConflict(a, b) })
			d := l.UseDefaultResolveConflict(a, b)
			switch {
			case pv != nil:
				fmt.Fprintf(w, "RES %s | %s | panic | %s\n", show(a), show(b), show(d))
			case err != nil:
				fmt.Fprintf(w, "RES %s | %s | none | %s\n", show(a), show(b), show(d))
			default:
				fmt.Fprintf(w, "RES %s | %s | %s | %s\n", show(a), show(b), show(r), show(d))
			}
		}
	}
}
