import Yv.Cert.Auto
/-! The generated LR driver (`Parser`, `ReduceFunc`, `PushStateSym`, `PopStateSym` of the three
    templates) as a pure function.  Parameters: the table lookup `L` (dense `StateActionArray`
    indexing or the packed `Action` method — `none` models an index out of range, i.e. a Go panic /
    JS TypeError), the two action constants the emitted file compares with, the per-rule data
    (lhs, |rhs|) and the semantic actions `sem r [v₁ … vₙ]`.

    Stack: top at the head, bottom entry `(0, 1)` included (so `StackPointer = stack.length`).
    Input: the translated tokens *before* the end marker, each with the value the lexer delivered;
    once they are exhausted the lexer answers the end marker `1` for ever. -/
namespace Y.D

structure Entry (V : Type) where
  st : Nat
  sym : Sym
  val : V

/-- trace events of the Go templates (`TraceShift`, `TraceReduce`) -/
inductive Ev
  | shift (sym : Sym) (st : Nat)                 -- "Shift X, push state p"
  | reduce (look : Sym) (rule : Nat) (st : Nat)  -- "look ahead a, use Reduce:<rule>, go to state p"
deriving DecidableEq, Repr

structure Cfg (V : Type) where
  stack : List (Entry V)
  rest : List (Sym × V)
  reds : List Nat          -- most recent first
  req : Nat                -- tokens requested from the lexer so far
  trace : List Ev          -- most recent first

structure Params (V : Type) where
  L : Nat → Nat → Option Int
  errC : Int
  accC : Int
  rule : Nat → Option (Sym × Nat)      -- rule number ↦ (lhs id, |rhs|); `none` = no `case` emitted
  sem : Nat → List V → V
  eofVal : V

inductive StepR (V : Type)
  | next (c : Cfg V)
  | acc (v : V) (c : Cfg V)
  | err (c : Cfg V)
  | crash

def look {V : Type} (eofVal : V) (c : Cfg V) : Sym × V :=
  match c.rest with
  | [] => (1, eofVal)
  | x :: _ => x

def step {V : Type} (P : Params V) (c : Cfg V) : StepR V :=
  match c.stack with
  | [] => .crash
  | top :: below =>
    match P.L top.st (look P.eofVal c).1 with
    | none => .crash
    | some a =>
      if a = P.errC then .err c
      else if a = P.accC then .acc top.val c
      else if 0 < a then
        .next { c with
          stack := ⟨a.toNat, (look P.eofVal c).1, (look P.eofVal c).2⟩ :: top :: below,
          rest := c.rest.tail,
          req := c.req + 1,
          trace := .shift (look P.eofVal c).1 a.toNat :: c.trace }
      else
        match P.rule (-a).toNat with
        | none => .crash
        | some (lhs, n) =>
          if n ≤ below.length then
            match (top :: below).drop n with
            | [] => .crash
            | under :: rest' =>
              match P.L under.st lhs with
              | none => .crash
              | some g =>
                if g < 0 then .crash
                else
                  .next { c with
                    stack := ⟨g.toNat, lhs,
                              P.sem (-a).toNat (((top :: below).take n).reverse.map Entry.val)⟩ ::
                             under :: rest',
                    reds := (-a).toNat :: c.reds,
                    trace := .shift lhs g.toNat :: .reduce (look P.eofVal c).1 (-a).toNat g.toNat :: c.trace }
          else .crash

inductive Outcome (V : Type)
  | accept (v : V) (c : Cfg V)
  | syntaxError (c : Cfg V)
  | crash
  | outOfFuel

def run {V : Type} (P : Params V) : Nat → Cfg V → Outcome V
  | 0, _ => .outOfFuel
  | fuel + 1, c =>
    match step P c with
    | .next c' => run P fuel c'
    | .acc v c' => .accept v c'
    | .err c' => .syntaxError c'
    | .crash => .crash

/-- `ParserInit` followed by the first `fetchLookAhead` -/
def init {V : Type} (bottomVal : V) (w : List (Sym × V)) : Cfg V :=
  { stack := [⟨0, 1, bottomVal⟩], rest := w, reds := [], req := 1, trace := [] }

/-- the driver parameters for a dense table of grammar `G` (no `case` is emitted for rule 0) -/
def dparams {V : Type} (G : Grammar) (T : Dense) (n : Nat) (sem : Nat → List V → V) (eofVal : V) : Params V :=
  { L := cell T, errC := errCode n, accC := accCode n,
    rule := fun r => if r = 0 then none else (G.rules[r]?).map (fun rl => (rl.lhs, rl.rhs.length)),
    sem := sem, eofVal := eofVal }

end Y.D
