import Yv.Gen.Resolve
namespace C04
open Gen

/-- a shift on a token and a reduce by a rule, both carrying a precedence -/
structure SR (sh rd : Action) : Prop where
  hs : sh.actionType = SHIFT
  hr : rd.actionType = REDUCE
  ps : sh.prec ≠ -1
  pr : rd.prec ≠ -1

/-- resolve in either argument order -/
def resolved (sh rd x : Action) : Prop :=
  resolveConflict sh rd = .ok x ∧ resolveConflict rd sh = .ok x

theorem sr_higher_rule (sh rd : Action) (h : SR sh rd) (hp : rd.prec > sh.prec) : resolved sh rd rd := by
  obtain ⟨hs, hr, ps, pr⟩ := h
  simp only [SHIFT, REDUCE] at hs hr
  constructor <;> simp [resolveConflict, hs, hr, ps, pr] <;> (intros; omega)

theorem sr_higher_token (sh rd : Action) (h : SR sh rd) (hp : rd.prec < sh.prec) : resolved sh rd sh := by
  obtain ⟨hs, hr, ps, pr⟩ := h
  simp only [SHIFT, REDUCE] at hs hr
  constructor <;> (unfold resolveConflict; grind)

theorem sr_equal_left (sh rd : Action) (h : SR sh rd) (hp : rd.prec = sh.prec)
    (hl : rd.precType = LEFT) (hl' : sh.precType = LEFT) : resolved sh rd rd := by
  obtain ⟨hs, hr, ps, pr⟩ := h
  simp only [SHIFT, REDUCE, LEFT] at hs hr hl hl'
  constructor <;> simp [resolveConflict, hs, hr, ps, pr, hp, hl, hl']

theorem sr_equal_right (sh rd : Action) (h : SR sh rd) (hp : rd.prec = sh.prec)
    (hl : rd.precType = RIGHT) (hl' : sh.precType = RIGHT) : resolved sh rd sh := by
  obtain ⟨hs, hr, ps, pr⟩ := h
  simp only [SHIFT, REDUCE, RIGHT] at hs hr hl hl'
  constructor <;> simp [resolveConflict, hs, hr, ps, pr, hp, hl, hl']

theorem sr_equal_nonassoc (sh rd : Action) (h : SR sh rd) (hp : rd.prec = sh.prec)
    (hl : rd.precType = NONE) :
    ∃ e, resolveConflict sh rd = .ok e ∧ e.actionType = ERROR := by
  obtain ⟨hs, hr, ps, pr⟩ := h
  simp only [SHIFT, REDUCE, NONE] at hs hr hl
  refine ⟨{ actionType := 2, actionIndex := 0, precType := 2, prec := rd.prec }, ?_, rfl⟩
  simp [resolveConflict, hs, hr, ps, hp, hl]

theorem no_prec_is_error (a b : Action) (h : a.prec = -1 ∨ b.prec = -1) :
    resolveConflict a b = .error () := by
  unfold resolveConflict
  rcases h with h | h <;> simp [h]

theorem default_sr_shifts (sh rd : Action) (hs : sh.actionType = SHIFT) (hr : rd.actionType = REDUCE) :
    useDefaultResolveConflict sh rd = sh ∧ useDefaultResolveConflict rd sh = sh := by
  simp only [SHIFT, REDUCE] at hs hr
  constructor <;> simp [useDefaultResolveConflict, hs, hr]

/-- A reduce/reduce conflict without applicable precedence reduces by the rule that appears first
    in the file (`actionIndex = -(rule number)`, so the earlier rule is the larger index), whatever
    the order in which the two candidates are presented. -/
theorem rr_first (a b : Action) (ha : a.actionType = REDUCE) (hb : b.actionType = REDUCE)
    (hlt : a.actionIndex > b.actionIndex) :
    useDefaultResolveConflict a b = a ∧ useDefaultResolveConflict b a = a := by
  simp only [REDUCE] at ha hb
  constructor <;> (unfold useDefaultResolveConflict; grind)

/-- non-vacuity: concrete actions meeting the hypotheses -/
example : SR ⟨0, 7, 0, 2⟩ ⟨1, -3, 0, 3⟩ := ⟨rfl, rfl, by decide, by decide⟩
example : useDefaultResolveConflict ⟨1, -3, 2, -1⟩ ⟨1, -5, 2, -1⟩ = ⟨1, -3, 2, -1⟩ := by decide

end C04
