import Yv.Model.Drive
/-! The generated LR driver with its *real* stack representation: a growable array plus a stack
    pointer (`StateSymStack`/`StackPointer` in the Go global template and in the TypeScript
    template, `c.StackSym`/`c.Stackpos` in the Go context template).  Slots at or above the
    pointer are stale.  `Y.D.step` (list stack) is the specification; `Y.AD.astep` follows the
    emitted code literally. -/
namespace Y.AD
open Y.D

/-- the slice (as a list: index 0 is the bottom) and the stack pointer -/
structure AStack (V : Type) where
  a : List (Entry V)
  sp : Nat

namespace AStack

/-- `PushStateSym`: append when the pointer is at (or beyond) the end, else overwrite the stale slot -/
def push {V : Type} (s : AStack V) (e : Entry V) : AStack V :=
  if s.sp ≥ s.a.length then ⟨s.a ++ [e], s.sp + 1⟩ else ⟨s.a.set s.sp e, s.sp + 1⟩

/-- `PopStateSym` -/
def pop {V : Type} (s : AStack V) (n : Nat) : AStack V := ⟨s.a, s.sp - n⟩

/-- the live part, top first -/
def abs {V : Type} (s : AStack V) : List (Entry V) := (s.a.take s.sp).reverse

def Inv {V : Type} (s : AStack V) : Prop := s.sp ≤ s.a.length

/-- `&Stack[sp-1]` (`none` = index out of range, a Go panic / JS TypeError) -/
def top? {V : Type} (s : AStack V) : Option (Entry V) := s.a[s.sp - 1]?

/-- `Dollar := Stack[topIndex-n : sp]` with `topIndex = sp-1`: `n+1` entries, `Dollar[0]` is the
    entry under the handle, `Dollar[1..n]` the handle in index order.  (The caller checks
    `0 ≤ topIndex-n`.) -/
def dollar {V : Type} (s : AStack V) (n : Nat) : List (Entry V) :=
  (s.a.drop (s.sp - 1 - n)).take (n + 1)

end AStack

/-- the bottom entry `{Yystate: 0, YySymIndex: 1}` -/
def bottom {V : Type} (bv : V) : Entry V := ⟨0, 1, bv⟩

/-- `ParserInit` of the Go global template and `initialize` of the TypeScript template: a fresh
    one-element array, whatever was there before -/
def initGlobal {V : Type} (bv : V) : AStack V := ⟨[bottom bv], 1⟩

/-- the same, with the prior state `σ` of the global array and pointer made explicit: the
    assignment `StateSymStack = []StateSym{…}` discards it -/
def reinitGlobal {V : Type} (_σ : AStack V) (bv : V) : AStack V := initGlobal bv

/-- `ParserInit` of the Go context template: APPENDS the bottom entry, then resets the pointer -/
def initCtx {V : Type} (s : AStack V) (bv : V) : AStack V := ⟨s.a ++ [bottom bv], 1⟩

/-- a never-used context object (`&Context{}`) -/
def emptyStack {V : Type} : AStack V := ⟨[], 0⟩

structure ACfg (V : Type) where
  stack : AStack V
  rest : List (Sym × V)
  reds : List Nat
  req : Nat
  trace : List Ev

inductive AStepR (V : Type)
  | next (c : ACfg V)
  | acc (v : V) (c : ACfg V)
  | err (c : ACfg V)
  | crash
  | nil                    -- the loop guards `sp == 0` / `sp > len(stack)`: `break; return nil`

def alook {V : Type} (eofVal : V) (c : ACfg V) : Sym × V :=
  match c.rest with
  | [] => (1, eofVal)
  | x :: _ => x

/-- one iteration of the `for` loop of `Parser` -/
def astep {V : Type} (P : Params V) (c : ACfg V) : AStepR V :=
  if c.stack.sp = 0 then .nil
  else if c.stack.sp > c.stack.a.length then .nil
  else
    match c.stack.top? with
    | none => .crash
    | some top =>
      match P.L top.st (alook P.eofVal c).1 with
      | none => .crash
      | some a =>
        if a = P.errC then .err c
        else if a = P.accC then .acc top.val c
        else if 0 < a then
          .next { c with
            stack := c.stack.push ⟨a.toNat, (alook P.eofVal c).1, (alook P.eofVal c).2⟩,
            rest := c.rest.tail,
            req := c.req + 1,
            trace := .shift (alook P.eofVal c).1 a.toNat :: c.trace }
        else
          match P.rule (-a).toNat with
          | none => .crash
          | some (lhs, n) =>
            -- slice bound check of `Stack[topIndex-n : sp]`
            if n ≤ c.stack.sp - 1 then
              match (c.stack.pop n).top? with
              | none => .crash
              | some under =>
                match P.L under.st lhs with
                | none => .crash
                | some g =>
                  if g < 0 then .crash
                  else
                    .next { c with
                      stack := (c.stack.pop n).push
                        ⟨g.toNat, lhs, P.sem (-a).toNat (((c.stack.dollar n).drop 1).map Entry.val)⟩,
                      reds := (-a).toNat :: c.reds,
                      trace := .shift lhs g.toNat ::
                        .reduce (alook P.eofVal c).1 (-a).toNat g.toNat :: c.trace }
            else .crash

inductive AOutcome (V : Type)
  | accept (v : V) (c : ACfg V)
  | syntaxError (c : ACfg V)
  | crash
  | outOfFuel
  | nil

def arun {V : Type} (P : Params V) : Nat → ACfg V → AOutcome V
  | 0, _ => .outOfFuel
  | fuel + 1, c =>
    match astep P c with
    | .next c' => arun P fuel c'
    | .acc v c' => .accept v c'
    | .err c' => .syntaxError c'
    | .crash => .crash
    | .nil => .nil

/-- the configuration after the given initialiser and the first `fetchLookAhead` -/
def ainit {V : Type} (s : AStack V) (w : List (Sym × V)) : ACfg V :=
  { stack := s, rest := w, reds := [], req := 1, trace := [] }

/-- the configuration at the head of the loop when it stops (accept, error, crash, nil) or when
    the fuel is used up -/
def alast {V : Type} (P : Params V) : Nat → ACfg V → ACfg V
  | 0, c => c
  | fuel + 1, c =>
    match astep P c with
    | .next c' => alast P fuel c'
    | _ => c

/-! ### abstraction to the list driver -/

def absCfg {V : Type} (c : ACfg V) : D.Cfg V :=
  { stack := c.stack.abs, rest := c.rest, reds := c.reds, req := c.req, trace := c.trace }

/-- `nil` has no counterpart in the list driver -/
def absStepR {V : Type} : AStepR V → Option (D.StepR V)
  | .next c => some (.next (absCfg c))
  | .acc v c => some (.acc v (absCfg c))
  | .err c => some (.err (absCfg c))
  | .crash => some .crash
  | .nil => none

def absOutcome {V : Type} : AOutcome V → Option (D.Outcome V)
  | .accept v c => some (.accept v (absCfg c))
  | .syntaxError c => some (.syntaxError (absCfg c))
  | .crash => some .crash
  | .outOfFuel => some .outOfFuel
  | .nil => none

/-! ### several contexts -/

/-- the state of one context object: its loop is still running, or it has ended -/
inductive CtxSt (V : Type)
  | running (c : ACfg V)
  | done (o : AOutcome V)

/-- the context takes one loop iteration (nothing happens once its loop has ended) -/
def ctxStep {V : Type} (P : Params V) : CtxSt V → CtxSt V
  | .running c =>
    match astep P c with
    | .next c' => .running c'
    | .acc v c' => .done (.accept v c')
    | .err c' => .done (.syntaxError c')
    | .crash => .done .crash
    | .nil => .done .nil
  | .done o => .done o

/-- `k` iterations of one context on its own -/
def soloSteps {V : Type} (P : Params V) : Nat → CtxSt V → CtxSt V
  | 0, s => s
  | k + 1, s => soloSteps P k (ctxStep P s)

/-- what `arun` reports for a context state when the fuel is used up -/
def CtxSt.outcome {V : Type} : CtxSt V → AOutcome V
  | .running _ => .outOfFuel
  | .done o => o

/-- a system of `k` contexts; schedule element `i` = "context i takes one step": only
    component `i` of the system changes -/
def sysStep {V : Type} {k : Nat} (P : Params V) (S : Fin k → CtxSt V) (i : Fin k) : Fin k → CtxSt V :=
  fun j => if j = i then ctxStep P (S i) else S j

def sysRun {V : Type} {k : Nat} (P : Params V) (S : Fin k → CtxSt V) : List (Fin k) → Fin k → CtxSt V
  | [] => S
  | i :: sched => sysRun P (sysStep P S i) sched

end Y.AD
