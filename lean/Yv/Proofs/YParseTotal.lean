import Yv.Model.YParse
/-! C13 (parser half): the fuel `2 * toks.size + 10` that `YParse.parse` hands to its loops is never
    used up.  Every loop gets an instrumented twin (suffix `I`) that additionally reports whether
    the run reached `fuel = 0` somewhere; the twins compute the same results as the model
    (`…I_fst`), and with the model's own fuel the flag is `false`.

    Potential: `P.bound p = (toks.size - idx + peek) + (if p is parked at the end then 0 else 1)`. -/
namespace YParse
open YLex

/-! ## the potential -/

/-- tokens still deliverable: unread part of the array plus the peek buffer -/
def P.m (p : P) : Nat := p.toks.size - p.idx + p.peek

/-- parked at the end: nothing buffered, array exhausted, and both `a0` and `cur` already are EOF -/
def P.atEnd (p : P) : Prop :=
  p.peek = 0 ∧ p.toks.size ≤ p.idx ∧ p.a0.kind = .eof ∧ p.cur.kind = .eof

instance (p : P) : Decidable p.atEnd := by unfold P.atEnd; infer_instance

def P.bound (p : P) : Nat := p.m + if p.atEnd then 0 else 1

theorem P.atEnd.m_eq {p : P} (h : p.atEnd) : p.m = 0 := by
  obtain ⟨h1, h2, _, _⟩ := h
  unfold P.m; omega

theorem P.atEnd.cur_eof {p : P} (h : p.atEnd) : p.cur.kind = .eof := h.2.2.2

theorem bound_le_of {p q : P} (hm : q.m ≤ p.m) (he : p.atEnd → q.atEnd) : q.bound ≤ p.bound := by
  unfold P.bound
  by_cases hp : p.atEnd
  · rw [if_pos hp, if_pos (he hp)]; omega
  · rw [if_neg hp]; split <;> omega

theorem bound_lt_of {p q : P} (hp : ¬ p.atEnd) (h1 : 0 < p.m → q.m < p.m) (h0 : p.m = 0 → q.atEnd) :
    q.bound < p.bound := by
  unfold P.bound
  rw [if_neg hp]
  by_cases hz : p.m = 0
  · have hq := h0 hz
    rw [if_pos hq, hq.m_eq]; omega
  · have := h1 (by omega)
    split <;> omega

theorem bound_le_m (p : P) : p.bound ≤ p.m + 1 := by
  unfold P.bound; split <;> omega

/-! ## `next`, `backup`, `backup2` -/

def eofTok (p : P) : Tok := ⟨.eof, "", p.inputLen⟩

theorem next_of_peek {p : P} (h : 0 < p.peek) :
    p.next = { p with peek := p.peek - 1,
                      cur := if p.peek - 1 == 0 then p.a0 else if p.peek - 1 == 1 then p.a1 else zeroTok } := by
  unfold P.next
  simp only [gt_iff_lt, h, if_true]

theorem next_of_some {p : P} {t : Tok} (h : p.peek = 0) (ht : p.toks[p.idx]? = some t) :
    p.next = { p with a0 := t, idx := p.idx + 1, cur := t } := by
  unfold P.next
  simp [h, ht]

theorem next_of_none {p : P} (h : p.peek = 0) (ht : p.toks[p.idx]? = none) :
    p.next = { p with a0 := eofTok p, cur := eofTok p } := by
  unfold P.next
  simp [h, ht, eofTok]

/-- the three ways `next` can act -/
theorem next_cases (p : P) :
    (0 < p.peek ∧ p.next = { p with peek := p.peek - 1,
                                    cur := if p.peek - 1 == 0 then p.a0 else if p.peek - 1 == 1 then p.a1 else zeroTok }) ∨
    (p.peek = 0 ∧ p.idx < p.toks.size ∧ ∃ t, p.next = { p with a0 := t, idx := p.idx + 1, cur := t }) ∨
    (p.peek = 0 ∧ p.toks.size ≤ p.idx ∧ p.next = { p with a0 := eofTok p, cur := eofTok p }) := by
  by_cases h : 0 < p.peek
  · exact .inl ⟨h, next_of_peek h⟩
  · have h0 : p.peek = 0 := by omega
    cases ht : p.toks[p.idx]? with
    | none =>
      refine .inr (.inr ⟨h0, ?_, next_of_none h0 ht⟩)
      simpa using ht
    | some t =>
      refine .inr (.inl ⟨h0, ?_, t, next_of_some h0 ht⟩)
      have := Array.getElem?_eq_some_iff.mp ht
      exact this.1

theorem next_m_pos {p : P} (h : 0 < p.m) : p.next.m + 1 = p.m := by
  rcases next_cases p with ⟨h1, e⟩ | ⟨h1, h2, t, e⟩ | ⟨h1, h2, e⟩
  · rw [e]; simp only [P.m]; omega
  · rw [e]; simp only [P.m]; omega
  · unfold P.m at h; omega

theorem next_m_zero {p : P} (h : p.m = 0) : p.next.atEnd := by
  rcases next_cases p with ⟨h1, e⟩ | ⟨h1, h2, t, e⟩ | ⟨h1, h2, e⟩
  · unfold P.m at h; omega
  · unfold P.m at h; omega
  · rw [e]; exact ⟨h1, h2, rfl, rfl⟩

theorem next_m_le (p : P) : p.next.m ≤ p.m := by
  by_cases h : 0 < p.m
  · have := next_m_pos h; omega
  · have := (next_m_zero (by omega : p.m = 0)).m_eq; omega

theorem next_atEnd {p : P} (h : p.atEnd) : p.next.atEnd := next_m_zero h.m_eq

theorem next_bound_le (p : P) : p.next.bound ≤ p.bound :=
  bound_le_of (next_m_le p) next_atEnd

theorem next_bound_lt {p : P} (h : ¬ p.atEnd) : p.next.bound < p.bound :=
  bound_lt_of h (fun h1 => by have := next_m_pos h1; omega) next_m_zero

theorem is_eq {p : P} {k : Kind} : p.is k = true ↔ p.cur.kind = k := by
  simp [P.is]

theorem not_atEnd_of_is {p : P} {k : Kind} (h : p.is k = true) (hk : k ≠ .eof) : ¬ p.atEnd := by
  intro he
  have := he.cur_eof
  rw [is_eq.mp h] at this
  exact hk this

theorem not_atEnd_of_kind {p : P} {k : Kind} (h : p.cur.kind = k) (hk : k ≠ .eof) : ¬ p.atEnd :=
  not_atEnd_of_is (is_eq.mpr h) hk

/-! record updates of `defs` are invisible to the potential -/
@[simp] theorem m_defs (p : P) (d : List String) : ({ p with defs := d } : P).m = p.m := rfl
@[simp] theorem atEnd_defs (p : P) (d : List String) : ({ p with defs := d } : P).atEnd = p.atEnd := rfl
@[simp] theorem bound_defs (p : P) (d : List String) : ({ p with defs := d } : P).bound = p.bound := rfl
@[simp] theorem is_defs (p : P) (d : List String) (k : Kind) : ({ p with defs := d } : P).is k = p.is k := rfl
@[simp] theorem cur_defs (p : P) (d : List String) : ({ p with defs := d } : P).cur = p.cur := rfl

theorem next_defs (p : P) (d : List String) : ({ p with defs := d } : P).next = { p.next with defs := d } := by
  unfold P.next
  by_cases h : p.peek > 0
  · simp only [h, if_true]
  · simp only [h, if_false]
    cases p.toks[p.idx]? <;> rfl

@[simp] theorem bound_next_defs (p : P) (d : List String) :
    ({ p with defs := d } : P).next.bound = p.next.bound := by
  rw [next_defs]; rfl

@[simp] theorem cur_next_defs (p : P) (d : List String) :
    ({ p with defs := d } : P).next.cur = p.next.cur := by
  rw [next_defs]

@[simp] theorem is_next_defs (p : P) (d : List String) (k : Kind) :
    ({ p with defs := d } : P).next.is k = p.next.is k := by
  rw [next_defs]; rfl

theorem backup_bound (p : P) : p.backup.bound ≤ p.bound + 2 := by
  have h1 := bound_le_m p.backup
  have h2 : p.backup.m = p.m + 1 := by simp only [P.backup, P.m]; omega
  have h3 : p.m ≤ p.bound := by unfold P.bound; omega
  omega

theorem next_backup (p : P) : p.backup.next =
    { p with cur := if p.peek == 0 then p.a0 else if p.peek == 1 then p.a1 else zeroTok } := by
  rw [next_of_peek (by simp [P.backup])]
  simp [P.backup]

theorem next_backup_bound (p : P) : p.backup.next.bound ≤ p.bound := by
  rw [next_backup]
  apply bound_le_of
  · exact Nat.le_refl _
  · rintro ⟨h1, h2, h3, h4⟩
    refine ⟨h1, h2, h3, ?_⟩
    simp [h1, h3]

theorem next_backup2 (q : P) (t : Tok) : (q.backup2 t).next = { q with a1 := t, peek := 1, cur := t } := by
  rw [next_of_peek (by simp [P.backup2])]
  simp [P.backup2]

theorem next_next_backup2 (q : P) (t : Tok) :
    (q.backup2 t).next.next = { q with a1 := t, peek := 0, cur := q.a0 } := by
  rw [next_backup2, next_of_peek (by simp)]
  simp

theorem cur_next_backup2 (q : P) (t : Tok) : (q.backup2 t).next.cur = t := by
  rw [next_backup2]

theorem next_next_backup2_bound (q : P) (t : Tok) : (q.backup2 t).next.next.bound ≤ q.bound := by
  rw [next_next_backup2]
  apply bound_le_of
  · simp only [P.m]; omega
  · rintro ⟨h1, h2, h3, h4⟩
    exact ⟨rfl, h2, h3, h3⟩

/-- the early exit of `ruleLoop` (identifier followed by `:`) leaves one token buffered; the potential
    still does not exceed the one at the loop head -/
theorem next_backup2_bound {p : P} (t : Tok) (h : p.next.cur.kind ≠ .eof) :
    (p.next.backup2 t).next.bound ≤ p.bound := by
  have hb := bound_le_m (p.next.backup2 t).next
  have hm : (p.next.backup2 t).next.m = p.next.toks.size - p.next.idx + 1 := by
    rw [next_backup2]; rfl
  have key : p.next.toks.size - p.next.idx + 2 ≤ p.bound := by
    rcases next_cases p with ⟨h1, e⟩ | ⟨h1, h2, t', e⟩ | ⟨h1, h2, e⟩
    · have hne : ¬ p.atEnd := fun he => by have := he.1; omega
      have : p.bound = p.m + 1 := by unfold P.bound; rw [if_neg hne]
      rw [e]; simp only
      unfold P.m at this; omega
    · have hne : ¬ p.atEnd := fun he => by have := he.2.1; omega
      have : p.bound = p.m + 1 := by unfold P.bound; rw [if_neg hne]
      rw [e]; simp only
      unfold P.m at this; omega
    · rw [e] at h; exact absurd rfl h
  omega

theorem expect_bound (p : P) (k : Kind) : (p.expect k).bound ≤ p.bound := by
  unfold P.expect; split
  · exact next_bound_le p
  · exact Nat.le_refl _

theorem optTag_bound (p : P) : (optTag p).1.bound ≤ p.bound := by
  unfold optTag; split
  · exact Nat.le_trans (expect_bound _ _) (Nat.le_trans (next_bound_le _) (next_bound_le _))
  · exact Nat.le_refl _

/-! ## instrumented twins: same code, plus a flag "some loop reached `fuel = 0`" -/

def tokendefLoopI : Nat → P → String → List Ident → (P × List Ident) × Bool
  | 0, p, _, acc => ((p, acc), true)
  | fuel+1, p, tag, acc =>
    if p.is .identifier then
      let name := p.cur.value
      let p := p.next
      let (p, value, alias) :=
        if p.is .number then (p, atoi p.cur.value, "")
        else if p.is .charater || p.is .stringKind then (p, (0 : Int), p.cur.value)
        else (p.backup, (0 : Int), "")
      let p := { p with defs := name :: p.defs }
      tokendefLoopI fuel p.next tag (acc ++ [⟨name, value, tag, alias⟩])
    else if p.is .charater then
      let v := p.cur.value
      let p := { p with defs := opName v :: p.defs }
      tokendefLoopI fuel p.next tag (acc ++ [⟨opName v, firstByte v, tag, v⟩])
    else ((p, acc), false)

def parseTokendefI (fuel : Nat) (p : P) : (P × List Ident) × Bool :=
  let (p, tag) := optTag p.next
  tokendefLoopI fuel p tag []

def precLoopI : Nat → P → String → Nat → List Ident → List PrecDef → (P × List Ident × List PrecDef) × Bool
  | 0, p, _, _, ids, res => ((p, ids, res), true)
  | fuel+1, p, tag, assoc, ids, res =>
    let p := p.next
    if p.is .identifier || p.is .charater then
      let v := p.cur.value
      let (name, value) : String × Int := if p.is .charater then (opName v, firstByte v) else (v, 0)
      let (p, ids) := if p.defs.contains name then (p, ids)
        else ({ p with defs := name :: p.defs }, ids ++ [⟨name, value, tag, ""⟩])
      precLoopI fuel p tag assoc ids (res ++ [⟨name, assoc⟩])
    else ((p, ids, res), false)

def parsePrecListI (fuel : Nat) (p : P) : (P × List Ident × List PrecDef) × Bool :=
  let assoc := if p.is .leftAssoc then 1 else if p.is .rightAssoc then 2 else 3
  let (p, tag) := optTag p.next
  precLoopI fuel p.backup tag assoc [] []

def typeLoopI : Nat → P → String → List TypeDef → (P × List TypeDef) × Bool
  | 0, p, _, acc => ((p, acc), true)
  | fuel+1, p, tag, acc =>
    if p.is .identifier then typeLoopI fuel p.next tag (acc ++ [⟨p.cur.value, tag⟩])
    else ((p, acc), false)

def parseTypeListI (fuel : Nat) (p : P) : (P × List TypeDef) × Bool :=
  let (p, tag) := optTag p.next
  typeLoopI fuel p tag []

theorem tokendefLoopI_fst (fuel : Nat) (p : P) (tag : String) (acc : List Ident) :
    (tokendefLoopI fuel p tag acc).1 = tokendefLoop fuel p tag acc := by
  induction fuel generalizing p acc with
  | zero => rfl
  | succ n ih =>
    unfold tokendefLoopI tokendefLoop
    split
    · simp only
      exact ih _ _
    · split
      · exact ih _ _
      · rfl

theorem parseTokendefI_fst (fuel : Nat) (p : P) : (parseTokendefI fuel p).1 = parseTokendef fuel p := by
  unfold parseTokendefI parseTokendef
  exact tokendefLoopI_fst _ _ _ _

theorem precLoopI_fst (fuel : Nat) (p : P) (tag : String) (assoc : Nat) (ids : List Ident) (res : List PrecDef) :
    (precLoopI fuel p tag assoc ids res).1 = precLoop fuel p tag assoc ids res := by
  induction fuel generalizing p ids res with
  | zero => rfl
  | succ n ih =>
    unfold precLoopI precLoop
    simp only
    split
    · exact ih _ _ _
    · rfl

theorem parsePrecListI_fst (fuel : Nat) (p : P) : (parsePrecListI fuel p).1 = parsePrecList fuel p := by
  unfold parsePrecListI parsePrecList
  exact precLoopI_fst _ _ _ _ _ _

theorem typeLoopI_fst (fuel : Nat) (p : P) (tag : String) (acc : List TypeDef) :
    (typeLoopI fuel p tag acc).1 = typeLoop fuel p tag acc := by
  induction fuel generalizing p acc with
  | zero => rfl
  | succ n ih =>
    unfold typeLoopI typeLoop
    split
    · exact ih _ _
    · rfl

theorem parseTypeListI_fst (fuel : Nat) (p : P) : (parseTypeListI fuel p).1 = parseTypeList fuel p := by
  unfold parseTypeListI parseTypeList
  exact typeLoopI_fst _ _ _ _

def declLoopI : Nat → P → Decl → Option (P × Decl) × Bool
  | 0, _, _ => (none, true)
  | fuel+1, p, d =>
    if p.is .eof || p.is .section then (some (p, d), false)
    else if p.is .error then (none, false)
    else
      let d := if p.is .unionDir then { d with union := p.cur.value } else d
      let d := if p.is .codeQuote then { d with code := d.code ++ p.cur.value } else d
      if p.is .tokenDir then
        let r := parseTokendefI fuel p
        let r2 := declLoopI fuel r.1.1 { d with tokDefs := d.tokDefs ++ [r.1.2] }
        (r2.1, r.2 || r2.2)
      else if p.is .leftAssoc || p.is .rightAssoc || p.is .noneAssoc || p.is .precedence then
        let r := parsePrecListI fuel p
        let d := if r.1.2.1.isEmpty then d else { d with tokDefs := d.tokDefs ++ [r.1.2.1] }
        let r2 := declLoopI fuel r.1.1 { d with precDefs := d.precDefs ++ [r.1.2.2] }
        (r2.1, r.2 || r2.2)
      else if p.is .typeDir then
        let r := parseTypeListI fuel p
        let r2 := declLoopI fuel r.1.1 { d with typeDefs := d.typeDefs ++ r.1.2 }
        (r2.1, r.2 || r2.2)
      else
        let (p, d) := if p.is .startDir then
            let p := p.next
            (p, { d with start := if p.is .identifier then p.cur.value else "" })
          else (p, d)
        declLoopI fuel p.next d

def ruleLoopI : Nat → P → String → RuleDef → List Elem → List RuleDef → List Ident → RR × Bool
  | 0, p, _, _, _, res, ids => (⟨p, some res, ids⟩, true)
  | fuel+1, p, left, rule, rp, res, ids =>
    let t1 := p.cur
    let p := p.next
    let t2 := p.cur
    let p := p.backup2 t1
    if t1.kind == .ruleEnd || (t1.kind == .identifier && t2.kind == .ruleDefine) then
      let p := p.next
      let p := if p.is .ruleEnd then p.next else p
      (⟨p, some (res ++ [rule]), ids⟩, false)
    else
      let p := p.next
      match p.cur.kind with
      | .charater =>
        let name := opName p.cur.value
        let rp := rp ++ [⟨1, name⟩]
        let (p, ids) := if p.defs.contains name then (p, ids)
          else ({ p with defs := name :: p.defs }, ids ++ [⟨name, firstByte p.cur.value, "", ""⟩])
        ruleLoopI fuel p.next left { rule with rhs := rp } rp res ids
      | .identifier =>
        let rp := rp ++ [⟨1, p.cur.value⟩]
        ruleLoopI fuel p.next left { rule with rhs := rp } rp res ids
      | .actionQuote =>
        let rp := rp ++ [⟨2, p.cur.value⟩]
        ruleLoopI fuel p.next left { rule with rhs := rp } rp res ids
      | .ruleOr =>
        ruleLoopI fuel p.next left { lhs := left } [] (res ++ [rule]) ids
      | .precDir =>
        let p := p.next
        if p.is .identifier then
          ruleLoopI fuel p.next left { rule with precSym := p.cur.value, rhs := rp } rp res ids
        else if p.is .charater then
          ruleLoopI fuel p.next left { rule with precSym := opName p.cur.value, rhs := rp } rp res ids
        else (⟨p, none, []⟩, false)
      | _ => (⟨p, some (res ++ [rule]), ids⟩, false)

def parseRuleI (fuel : Nat) (p : P) : RR × Bool :=
  if p.is .identifier then
    let left := p.cur.value
    let p := p.next.expect .ruleDefine
    ruleLoopI fuel p left { lhs := left } [] [] []
  else (⟨p.backup, none, []⟩, false)

def rulesLoopI : Nat → P → List RuleDef → List (List Ident) → (P × List RuleDef × List (List Ident)) × Bool
  | 0, p, rs, tds => ((p, rs, tds), true)
  | fuel+1, p, rs, tds =>
    let r := parseRuleI fuel p
    match r.1.rules with
    | none => ((r.1.p, rs, tds), r.2)
    | some l =>
      let r2 := rulesLoopI fuel r.1.p (rs ++ l) (if r.1.ids.isEmpty then tds else tds ++ [r.1.ids])
      (r2.1, r.2 || r2.2)

/-- instrumented run of the whole parser: the model's result and "some loop ran out of fuel" -/
structure PI where
  result : Option Root
  exhausted : Bool

def parseI (src : String) : PI :=
  let (toks, _) := lexAll src
  let fuel := 2 * toks.size + 10
  let p : P := { toks := toks, inputLen := src.length }
  let r1 := declLoopI fuel p.next {}
  match r1.1 with
  | none => ⟨none, r1.2⟩
  | some (p, d) =>
    if !p.is .section then ⟨none, r1.2⟩
    else
      let r2 := rulesLoopI fuel p.next [] []
      ⟨(match r2.1 with
        | (p, rs, tds) =>
          if !p.is .section && !p.is .eof then none
          else some { decl := { d with tokDefs := d.tokDefs ++ tds }, rules := rs,
                      rest := String.ofList (src.toList.drop p.cur.endAt) }),
       r1.2 || r2.2⟩

theorem declLoopI_fst (fuel : Nat) (p : P) (d : Decl) : (declLoopI fuel p d).1 = declLoop fuel p d := by
  induction fuel generalizing p d with
  | zero => rfl
  | succ n ih =>
    unfold declLoopI declLoop
    split
    · rfl
    · split
      · rfl
      · simp only
        split
        · rw [ih, parseTokendefI_fst]
        · split
          · rw [ih, parsePrecListI_fst]
          · split
            · rw [ih, parseTypeListI_fst]
            · exact ih _ _

theorem ruleLoopI_fst (fuel : Nat) (p : P) (left : String) (rule : RuleDef) (rp : List Elem)
    (res : List RuleDef) (ids : List Ident) :
    (ruleLoopI fuel p left rule rp res ids).1 = ruleLoop fuel p left rule rp res ids := by
  induction fuel generalizing p rule rp res ids with
  | zero => rfl
  | succ n ih =>
    unfold ruleLoopI ruleLoop
    simp only
    split
    · rfl
    · generalize (p.next.backup2 p.cur).next.cur.kind = k
      cases k <;> simp only <;>
        first
        | exact ih _ _ _ _ _
        | rfl
        | (split
           · exact ih _ _ _ _ _
           · split
             · exact ih _ _ _ _ _
             · rfl)

theorem parseRuleI_fst (fuel : Nat) (p : P) : (parseRuleI fuel p).1 = parseRule fuel p := by
  unfold parseRuleI parseRule
  split
  · exact ruleLoopI_fst _ _ _ _ _ _ _
  · rfl

theorem rulesLoopI_fst (fuel : Nat) (p : P) (rs : List RuleDef) (tds : List (List Ident)) :
    (rulesLoopI fuel p rs tds).1 = rulesLoop fuel p rs tds := by
  induction fuel generalizing p rs tds with
  | zero => rfl
  | succ n ih =>
    unfold rulesLoopI rulesLoop
    simp only [parseRuleI_fst]
    generalize (parseRule n p).rules = o
    cases o with
    | none => rfl
    | some l => exact ih _ _ _

theorem parseI_result (src : String) : (parseI src).result = parse src := by
  unfold parseI parse
  simp only [declLoopI_fst]
  generalize declLoop _ _ _ = o
  cases o with
  | none => rfl
  | some pd =>
    obtain ⟨p, d⟩ := pd
    simp only
    split
    · rfl
    · simp only [rulesLoopI_fst]

/-! ## with enough fuel no twin reports exhaustion

Every lemma `…I_ok` says: if the potential at the loop head is below the fuel, the flag is `false`
and the potential of the parser state handed back does not exceed the one at the head (so the
caller's own accounting goes through).  `ruleLoop` may hand back a state with one re-delivered token
at the very end of the input (potential + 1); in that case its current token is not an identifier
and `rulesLoop` stops at once, which is what the second disjunct records. -/

theorem ok_step {α : Type} {r : (P × α) × Bool} {Y p : P} {n : Nat}
    (ih : Y.bound < n → r.2 = false ∧ r.1.1.bound ≤ Y.bound)
    (hlt : Y.bound < p.bound) (hp : p.bound < n + 1) :
    r.2 = false ∧ r.1.1.bound ≤ p.bound := by
  have := ih (by omega)
  exact ⟨this.1, by omega⟩

theorem tokendefLoopI_ok (fuel : Nat) (p : P) (tag : String) (acc : List Ident) (h : p.bound < fuel) :
    (tokendefLoopI fuel p tag acc).2 = false ∧ (tokendefLoopI fuel p tag acc).1.1.bound ≤ p.bound := by
  induction fuel generalizing p acc with
  | zero => omega
  | succ n ih =>
    unfold tokendefLoopI
    split
    · rename_i hid
      have hlt := next_bound_lt (not_atEnd_of_is hid (by decide))
      have h1 := next_bound_le p.next
      have h2 := next_backup_bound p.next
      simp only
      refine ok_step (ih _ _) ?_ h
      rw [bound_next_defs]
      split
      · simp only; omega
      · split <;> (simp only; omega)
    · split
      · rename_i hid
        have hlt := next_bound_lt (not_atEnd_of_is hid (by decide))
        refine ok_step (ih _ _) ?_ h
        rw [bound_next_defs]; omega
      · exact ⟨rfl, Nat.le_refl _⟩

theorem typeLoopI_ok (fuel : Nat) (p : P) (tag : String) (acc : List TypeDef) (h : p.bound < fuel) :
    (typeLoopI fuel p tag acc).2 = false ∧ (typeLoopI fuel p tag acc).1.1.bound ≤ p.bound := by
  induction fuel generalizing p acc with
  | zero => omega
  | succ n ih =>
    unfold typeLoopI
    split
    · rename_i hid
      exact ok_step (ih _ _) (next_bound_lt (not_atEnd_of_is hid (by decide))) h
    · exact ⟨rfl, Nat.le_refl _⟩

theorem sel_defs_next_bound {α : Type} (c : Prop) [Decidable c] (q : P) (a b : α) (d : List String) :
    (if c then (q, a) else (({ q with defs := d } : P), b)).1.next.bound = q.next.bound := by
  split
  · rfl
  · exact bound_next_defs _ _

/-- `precLoop` starts every iteration with `next`, so its potential is the one after that `next` -/
theorem ok_step_prec {α : Type} {r : (P × α) × Bool} {Y q : P} {n : Nat}
    (ih : Y.next.bound < n → r.2 = false ∧ r.1.1.bound ≤ Y.next.bound)
    (hlt : Y.next.bound < q.bound) (hp : q.bound < n + 1) :
    r.2 = false ∧ r.1.1.bound ≤ q.bound := by
  have := ih (by omega)
  exact ⟨this.1, by omega⟩

theorem precLoopI_ok (fuel : Nat) (p : P) (tag : String) (assoc : Nat) (ids : List Ident) (res : List PrecDef)
    (h : p.next.bound < fuel) :
    (precLoopI fuel p tag assoc ids res).2 = false ∧
    (precLoopI fuel p tag assoc ids res).1.1.bound ≤ p.next.bound := by
  induction fuel generalizing p ids res with
  | zero => omega
  | succ n ih =>
    unfold precLoopI
    simp only
    split
    · rename_i hid
      have hne : ¬ p.next.atEnd := by
        rcases (Bool.or_eq_true _ _).mp hid with h1 | h1
        · exact not_atEnd_of_is h1 (by decide)
        · exact not_atEnd_of_is h1 (by decide)
      have hlt := next_bound_lt hne
      refine ok_step_prec (ih _ _ _) ?_ h
      rw [sel_defs_next_bound]; exact hlt
    · exact ⟨rfl, Nat.le_refl _⟩

theorem parseTokendefI_ok (fuel : Nat) (p : P) (h : p.bound ≤ fuel) (hne : ¬ p.atEnd) :
    (parseTokendefI fuel p).2 = false ∧ (parseTokendefI fuel p).1.1.bound < p.bound := by
  unfold parseTokendefI
  simp only
  have h1 := next_bound_lt hne
  have h2 := optTag_bound p.next
  have := tokendefLoopI_ok fuel (optTag p.next).1 (optTag p.next).2 [] (by omega)
  exact ⟨this.1, by omega⟩

theorem parseTypeListI_ok (fuel : Nat) (p : P) (h : p.bound ≤ fuel) (hne : ¬ p.atEnd) :
    (parseTypeListI fuel p).2 = false ∧ (parseTypeListI fuel p).1.1.bound < p.bound := by
  unfold parseTypeListI
  simp only
  have h1 := next_bound_lt hne
  have h2 := optTag_bound p.next
  have := typeLoopI_ok fuel (optTag p.next).1 (optTag p.next).2 [] (by omega)
  exact ⟨this.1, by omega⟩

theorem parsePrecListI_ok (fuel : Nat) (p : P) (h : p.bound ≤ fuel) (hne : ¬ p.atEnd) :
    (parsePrecListI fuel p).2 = false ∧ (parsePrecListI fuel p).1.1.bound < p.bound := by
  unfold parsePrecListI
  simp only
  have h1 := next_bound_lt hne
  have h2 := optTag_bound p.next
  have h3 := next_backup_bound (optTag p.next).1
  have := precLoopI_ok fuel (optTag p.next).1.backup (optTag p.next).2
    (if p.is .leftAssoc then 1 else if p.is .rightAssoc then 2 else 3) [] [] (by omega)
  exact ⟨this.1, by omega⟩

theorem not_atEnd_of_not_eof {p : P} (h : ¬ p.is .eof = true) : ¬ p.atEnd :=
  fun he => h (is_eq.mpr he.cur_eof)

theorem decl_step0 {r2 : Option (P × Decl) × Bool} {Y p : P} {n : Nat}
    (ih : Y.bound < n → r2.2 = false ∧ ∀ q d', r2.1 = some (q, d') → q.bound ≤ Y.bound)
    (hlt : Y.bound < p.bound) (hp : p.bound < n + 1) :
    r2.2 = false ∧ ∀ q d', r2.1 = some (q, d') → q.bound ≤ p.bound := by
  have := ih (by omega)
  exact ⟨this.1, fun q d' e => by have := this.2 q d' e; omega⟩

theorem decl_step {r2 : Option (P × Decl) × Bool} {e1 : Bool} {Y p : P} {n : Nat}
    (ih : Y.bound < n → r2.2 = false ∧ ∀ q d', r2.1 = some (q, d') → q.bound ≤ Y.bound)
    (he : e1 = false ∧ Y.bound < p.bound) (hp : p.bound < n + 1) :
    (e1 || r2.2) = false ∧ ∀ q d', r2.1 = some (q, d') → q.bound ≤ p.bound := by
  have := decl_step0 ih he.2 hp
  rw [he.1, this.1]
  exact ⟨rfl, this.2⟩

theorem declLoopI_ok (fuel : Nat) (p : P) (d : Decl) (h : p.bound < fuel) :
    (declLoopI fuel p d).2 = false ∧
    ∀ q d', (declLoopI fuel p d).1 = some (q, d') → q.bound ≤ p.bound := by
  induction fuel generalizing p d with
  | zero => omega
  | succ n ih =>
    unfold declLoopI
    split
    · exact ⟨rfl, fun q d' e => by cases e; exact Nat.le_refl _⟩
    · rename_i hstop
      have hne : ¬ p.atEnd := not_atEnd_of_not_eof (fun he => hstop (by simp [he]))
      split
      · exact ⟨rfl, fun q d' e => by cases e⟩
      · simp only
        split
        · exact decl_step (ih _ _) (parseTokendefI_ok n p (by omega) hne) h
        · split
          · exact decl_step (ih _ _) (parsePrecListI_ok n p (by omega) hne) h
          · split
            · exact decl_step (ih _ _) (parseTypeListI_ok n p (by omega) hne) h
            · refine decl_step0 (ih _ _) ?_ h
              have h1 := next_bound_lt hne
              have h2 := next_bound_le p.next
              split <;> (simp only; omega)

theorem rule_step {r : RR × Bool} {Y p : P} {n : Nat}
    (ih : Y.bound < n → r.2 = false ∧ (r.1.p.bound ≤ Y.bound ∨ r.1.p.cur.kind ≠ .identifier))
    (hlt : Y.bound < p.bound) (hp : p.bound < n + 1) :
    r.2 = false ∧ (r.1.p.bound ≤ p.bound ∨ r.1.p.cur.kind ≠ .identifier) := by
  have := ih (by omega)
  refine ⟨this.1, ?_⟩
  rcases this.2 with h | h
  · exact .inl (by omega)
  · exact .inr h

theorem ruleLoopI_ok (fuel : Nat) (p : P) (left : String) (rule : RuleDef) (rp : List Elem)
    (res : List RuleDef) (ids : List Ident) (h : p.bound < fuel) :
    (ruleLoopI fuel p left rule rp res ids).2 = false ∧
    ((ruleLoopI fuel p left rule rp res ids).1.p.bound ≤ p.bound ∨
     (ruleLoopI fuel p left rule rp res ids).1.p.cur.kind ≠ .identifier) := by
  induction fuel generalizing p rule rp res ids with
  | zero => omega
  | succ n ih =>
    have h1 := next_bound_le p
    have h3 := next_next_backup2_bound p.next p.cur
    unfold ruleLoopI
    simp only
    split
    · rename_i hcond
      refine ⟨rfl, .inl ?_⟩
      simp only
      split
      · omega
      · rename_i hre
        rw [is_eq, cur_next_backup2] at hre
        apply next_backup2_bound
        intro he
        simp [he, hre] at hcond
    · generalize hk : (p.next.backup2 p.cur).next.cur.kind = k
      rw [cur_next_backup2] at hk
      cases k <;> simp only
      case charater =>
        have hlt := next_bound_lt (not_atEnd_of_kind hk (by decide))
        refine rule_step (ih _ _ _ _ _) ?_ h
        rw [sel_defs_next_bound]; omega
      case identifier =>
        have hlt := next_bound_lt (not_atEnd_of_kind hk (by decide))
        exact rule_step (ih _ _ _ _ _) (by omega) h
      case actionQuote =>
        have hlt := next_bound_lt (not_atEnd_of_kind hk (by decide))
        exact rule_step (ih _ _ _ _ _) (by omega) h
      case ruleOr =>
        have hlt := next_bound_lt (not_atEnd_of_kind hk (by decide))
        exact rule_step (ih _ _ _ _ _) (by omega) h
      case precDir =>
        have hlt := next_bound_lt (not_atEnd_of_kind hk (by decide))
        have h4 := next_bound_le (p.next.backup2 p.cur).next.next
        split
        · exact rule_step (ih _ _ _ _ _) (by omega) h
        · split
          · exact rule_step (ih _ _ _ _ _) (by omega) h
          · exact ⟨rfl, .inl (by simp only; omega)⟩
      all_goals exact ⟨trivial, .inr (by simp only [cur_next_backup2, hk]; decide)⟩

theorem parseRuleI_ok (fuel : Nat) (p : P) (h : p.bound ≤ fuel) :
    (parseRuleI fuel p).2 = false ∧
    ((parseRuleI fuel p).1.rules ≠ none → 1 ≤ p.bound ∧
      ((parseRuleI fuel p).1.p.bound < p.bound ∨ (parseRuleI fuel p).1.p.cur.kind ≠ .identifier)) := by
  unfold parseRuleI
  split
  · rename_i hid
    have h1 := next_bound_lt (not_atEnd_of_is hid (by decide))
    have h2 := expect_bound p.next .ruleDefine
    have := ruleLoopI_ok fuel (p.next.expect .ruleDefine) p.cur.value { lhs := p.cur.value } [] [] [] (by omega)
    simp only
    refine ⟨this.1, fun _ => ⟨by omega, ?_⟩⟩
    rcases this.2 with h3 | h3
    · exact .inl (by omega)
    · exact .inr h3
  · exact ⟨rfl, fun hc => absurd rfl hc⟩

theorem rulesLoopI_ok (fuel : Nat) (p : P) (rs : List RuleDef) (tds : List (List Ident))
    (h : p.bound < fuel ∨ (p.cur.kind ≠ .identifier ∧ 0 < fuel)) :
    (rulesLoopI fuel p rs tds).2 = false := by
  induction fuel generalizing p rs tds with
  | zero => rcases h with h | h <;> omega
  | succ n ih =>
    have hr : (parseRuleI n p).2 = false ∧ ((parseRuleI n p).1.rules ≠ none →
        ((parseRuleI n p).1.p.bound < n ∨ ((parseRuleI n p).1.p.cur.kind ≠ .identifier ∧ 0 < n))) := by
      rcases h with h | ⟨hk, _⟩
      · have := parseRuleI_ok n p (by omega)
        refine ⟨this.1, fun hc => ?_⟩
        obtain ⟨h1, h2⟩ := this.2 hc
        rcases h2 with h2 | h2
        · exact .inl (by omega)
        · exact .inr ⟨h2, by omega⟩
      · have hni : ¬ p.is .identifier = true := fun hi => hk (is_eq.mp hi)
        unfold parseRuleI
        rw [if_neg hni]
        exact ⟨rfl, fun hc => absurd rfl hc⟩
    unfold rulesLoopI
    simp only
    split
    · exact hr.1
    · rename_i l heq
      have := ih (parseRuleI n p).1.p (rs ++ l)
        (if (parseRuleI n p).1.ids.isEmpty then tds else tds ++ [(parseRuleI n p).1.ids])
        (hr.2 (by rw [heq]; exact Option.some_ne_none _))
      simp only [hr.1, this, Bool.or_self]

theorem parseI_not_exhausted (src : String) : (parseI src).exhausted = false := by
  unfold parseI
  simp only
  generalize (lexAll src).1 = toks
  have h0 : ({ toks := toks, inputLen := src.length } : P).next.bound ≤ toks.size + 1 := by
    have h1 := next_bound_le ({ toks := toks, inputLen := src.length } : P)
    have h2 := bound_le_m ({ toks := toks, inputLen := src.length } : P)
    have h3 : ({ toks := toks, inputLen := src.length } : P).m = toks.size := by simp [P.m]
    omega
  have hd := declLoopI_ok (2 * toks.size + 10) ({ toks := toks, inputLen := src.length } : P).next {} (by omega)
  generalize declLoopI (2 * toks.size + 10) ({ toks := toks, inputLen := src.length } : P).next {} = r1 at hd ⊢
  obtain ⟨o, e⟩ := r1
  cases o with
  | none => exact hd.1
  | some pd =>
    obtain ⟨p, d⟩ := pd
    simp only
    split
    · exact hd.1
    · have h4 := hd.2 p d rfl
      have h5 := next_bound_le p
      have := rulesLoopI_ok (2 * toks.size + 10) p.next [] [] (.inl (by omega))
      have he : e = false := hd.1
      simp only [this, he, Bool.or_self]

end YParse
